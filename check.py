#!/venv/bin/python
"""CLI:  check.py <PID> [--tier quick|thorough] [--root DIR] [--replay FILE]

exit 0: every obligation discharged (known findings are printed as KNOWN-FINDING)
exit 1: at least one `VIOLATION property=<id> replay=<path>` line
exit 2: ANALYSIS-ERROR - the checker could not recognise what it reasons about
"""
import argparse
import importlib
import json
import os
import sys
import traceback

HERE = os.path.dirname(os.path.abspath(__file__))
sys.path.insert(0, HERE)
sys.dont_write_bytecode = True

from twverif.model import Program, AnalysisError, dynamic_feature_scan   # noqa: E402
from twverif.report import Ctx, finish                                   # noqa: E402
from twverif import sym                                                  # noqa: E402


def run_rules(pid: str, root: str, tier: str, seed: int) -> Ctx:
    sym.reset()
    prog = Program(root)
    ctx = Ctx(pid, prog, tier, seed)
    inv = prog.inventory()
    # inventory floors confirmed by hand on the pinned tree (DESIGN 2.0)
    if inv['modules'] < 15 or inv['functions'] < 100 or inv['methods'] < 50:
        raise AnalysisError(f"inventory below the confirmed floor: {inv}")
    dyn = dynamic_feature_scan(prog)
    if dyn:
        raise AnalysisError("dynamic features the resolver does not model: " + '; '.join(dyn))
    mod = importlib.import_module(f"twverif.rules.{pid.lower()}")
    mod.run(ctx)
    return ctx


def main(argv=None) -> int:
    ap = argparse.ArgumentParser()
    ap.add_argument('pid')
    ap.add_argument('--tier', default=os.environ.get('VERIF_TIER', 'quick'), choices=['quick', 'thorough'])
    ap.add_argument('--root', default='/repo')
    ap.add_argument('--replay', default=None)
    ap.add_argument('--no-evidence', action='store_true')
    ap.add_argument('--jobs', type=int, default=16)
    a = ap.parse_args(argv)
    pid = a.pid.upper()
    seed = int(os.environ.get('VERIF_SEED', '0') or 0)
    evidence = None if a.no_evidence else os.path.join(HERE, 'evidence', f"{pid}.json")
    try:
        replay = None
        if a.replay:
            with open(a.replay) as f:
                replay = json.load(f)
        ctx = run_rules(pid, a.root, a.tier, seed)
        extra = None
        if a.tier == 'thorough' and replay is None:
            from twverif import selftest
            extra = selftest.run_for_property(pid, a.root, a.jobs, ctx)
        return finish(ctx, evidence, replay, extra)
    except AnalysisError as e:
        print(f"ANALYSIS-ERROR property={pid}: {e}")
        return 2
    except Exception:
        print(f"ANALYSIS-ERROR property={pid}: checker raised")
        traceback.print_exc()
        return 2


if __name__ == '__main__':
    sys.exit(main())
