print('placeholder')
